#!/usr/bin/env python3
"""T-use: regenerate coq/gen/Uses.v (a value of Chain_Model.uses_tables) from the working tree.

    python3 translate/t_use.py [--repo /repo] [--out coq/gen/Uses.v | --stdout]
    python3 translate/t_use.py --self-test

Reads   include/tapkee/defines/methods.hpp   DimensionReductionTraits (fields, the Requires* constants), the
                                             constructor-initialiser list of DimensionReductionMethod, and the
                                             method -> trait table (static const DimensionReductionMethod ...)
        include/tapkee/methods.hpp           DynamicImplementation::embedUsing: the `method.needs_X &&
                                             is_dummy<T>::value -> throw unsupported_method_error(msg)` guards,
                                             the tapkee_method_handle(...) dispatch list and macro
        include/tapkee/methods/base.hpp      ImplementationBase: field -> type map (to resolve is_dummy<T> to a
                                             slot), what the constructor body calls on callbacks (guarded by
                                             !is_dummy<T> or not), which slots each helper member refers to
        include/tapkee/methods/*.hpp         per __TAPKEE_IMPLEMENTATION(X) block: the slots its validate()/
                                             embed() bodies refer to (in order of first appearance)
        include/tapkee/routines/*.hpp, utils/features.hpp, neighbors/*.hpp
                                             md_invoked: which callback member functions are reached through the
                                             routines each slot is passed to (followed through free functions,
                                             member functions, constructors -> fields, functor temporaries; what
                                             cannot be followed is kept as "?<what>")
Anything the small grammar does not understand raises TranslateError.
"""
import argparse
import glob
import os
import re
import shutil
import sys
import tempfile

sys.path.insert(0, os.path.dirname(os.path.abspath(__file__)))
from t_chain import (TranslateError, strip_comments, lex, match, split_commas, is_ident, drop_namespaces,  # noqa: E402
                     find_classes, split_decls, skip_template_header, param_names, q, coq_list, coq_strs)

DEFS = "include/tapkee/defines/methods.hpp"
METHODS = "include/tapkee/methods.hpp"
BASE = "include/tapkee/methods/base.hpp"
METHOD_DIR = "include/tapkee/methods"
ROUTINE_GLOBS = ["include/tapkee/routines/*.hpp", "include/tapkee/utils/features.hpp",
                 "include/tapkee/neighbors/*.hpp"]


def read(repo, rel):
    try:
        return open(os.path.join(repo, rel)).read()
    except OSError as ex:
        raise TranslateError("cannot read %s: %s" % (rel, ex))


def join_continuations(s):
    return s.replace("\\\n", " ")


# ----------------------------------------------------------------------------- defines/methods.hpp
def parse_defs(repo):
    text = strip_comments(read(repo, DEFS))
    classes, toks = find_classes(text)
    tr = [c for c in classes if c[0] == "DimensionReductionTraits"]
    if len(tr) != 1:
        raise TranslateError("DimensionReductionTraits not found")
    fields = []
    for d in split_decls(tr[0][2]):
        if d[0] == "@access":
            continue
        if d[-1] != ";" or "(" in d:
            raise TranslateError("DimensionReductionTraits is not a plain aggregate")
        core = [t for t in d[:-1] if t not in ("const",)]
        if core[:-1] != ["bool"]:
            raise TranslateError("DimensionReductionTraits field is not bool: " + " ".join(d))
        fields.append(core[-1])
    # the constants
    traits = []
    for m in re.finditer(r"static\s+const\s+DimensionReductionTraits\s+(\w+)\s*\{([^}]*)\}\s*;", text):
        vals = [v.strip() for v in m.group(2).split(",")]
        if any(v not in ("true", "false") for v in vals) or len(vals) != len(fields):
            raise TranslateError("traits constant %s is not a list of %d booleans" % (m.group(1), len(fields)))
        traits.append((m.group(1), [v == "true" for v in vals]))
    if len(re.findall(r"\bDimensionReductionTraits\s+\w+\s*[{(=]", text)) != len(traits):
        raise TranslateError("a DimensionReductionTraits object is defined in an unexpected form")
    # DimensionReductionMethod constructor
    dm = [c for c in classes if c[0] == "DimensionReductionMethod"]
    if len(dm) != 1:
        raise TranslateError("DimensionReductionMethod not found")
    body = dm[0][2]
    sig = " ".join(body)
    m = re.search(r"DimensionReductionMethod \( const char \* (\w+) , const DimensionReductionTraits & (\w+) \) : (.*?) \{ \}", sig)
    if not m:
        raise TranslateError("constructor of DimensionReductionMethod has an unexpected shape")
    tname = m.group(2)
    inits = []
    for part in split_commas(m.group(3).split(" ")):
        part = [p for p in part if p]
        if part[0] == "Method":
            continue
        if len(part) == 6 and part[1] == "(" and part[2] == tname and part[3] == "." and part[5] == ")":
            inits.append((part[0], part[4]))
        else:
            raise TranslateError("initialiser of DimensionReductionMethod: " + " ".join(part))
    mfields = []
    for d in split_decls(body):
        if d[0] != "@access" and d[-1] == ";" and "(" not in d and d[0] == "bool":
            mfields.append(d[1])
    for f in mfields:
        if f not in [a for a, _ in inits]:
            raise TranslateError("DimensionReductionMethod::%s is not initialised from the traits" % f)
    # method table
    methods = []
    for m in re.finditer(r"static\s+const\s+DimensionReductionMethod\s+(\w+)\s*\(\s*\"[^\"]*\"\s*,\s*(\w+)\s*\)\s*;", text):
        methods.append((m.group(1), m.group(2)))
    if len(re.findall(r"\bDimensionReductionMethod\s+\w+\s*[({=]", text)) != len(methods):
        raise TranslateError("a DimensionReductionMethod object is defined in an unexpected form")
    for n, t in methods:
        if t not in [x for x, _ in traits]:
            raise TranslateError("method %s is built from unknown traits %s" % (n, t))
    return fields, traits, inits, methods


# ----------------------------------------------------------------------------- base.hpp
def parse_base(repo):
    text = strip_comments(read(repo, BASE))
    classes, toks = find_classes(text)
    base = [c for c in classes if c[0] == "ImplementationBase"]
    if len(base) != 1:
        raise TranslateError("ImplementationBase not found")
    body = base[0][2]
    ftypes = {}        # field -> type tokens
    order = []
    helpers = {}       # member name -> body tokens
    ctor_body = None
    for d in split_decls(body):
        if d[0] == "@access":
            continue
        if d[-1] == ";":
            core = d[:-1]
            if "(" in core or core[0] in ("using", "typedef"):
                continue
            ftypes[core[-1]] = core[:-1]
            order.append(core[-1])
        else:
            t = skip_template_header(d)
            depth, k = 0, None
            for i, x in enumerate(t):
                if x == "<":
                    depth += 1
                elif x == ">":
                    depth -= 1
                elif x == "(" and depth == 0:
                    k = i
                    break
            name = t[k - 1]
            close = match(t, k, "(", ")")
            j = close + 1
            while t[j] != "{":
                # skip const / initialiser list
                j = match(t, j, "(", ")") + 1 if t[j] == "(" else (match(t, j, "<", ">") + 1 if t[j] == "<" else j + 1)
            e = match(t, j, "{", "}")
            fbody = t[j + 1:e]
            if name == "ImplementationBase":
                params = param_names(t[k + 1:close], "ImplementationBase")
                if not (len(params) == 1 and params[0] == "other"):
                    ctor_body = fbody
            else:
                helpers[name] = (param_names(t[k + 1:close], name), fbody)
    if ctor_body is None:
        raise TranslateError("constructor of ImplementationBase not found")
    # slots = fields whose type is a bare template parameter ...Callback, or a wrapper of one
    type_to_slot = {}
    for f in order:
        ty = ftypes[f]
        if len(ty) == 1 and ty[0].endswith("Callback"):
            if ty[0] in type_to_slot:
                raise TranslateError("two fields of type " + ty[0])
            type_to_slot[ty[0]] = f
    cb_slots = [f for f in order if any(t.endswith("Callback") for t in ftypes[f])]
    # constructor body: calls on callback slots, guarded or not
    guarded, unguarded = [], []
    i = 0
    tb = ctor_body

    def scan(tokens, guards):
        i = 0
        while i < len(tokens):
            t = tokens[i]
            if t == "if":
                c = match(tokens, i + 1, "(", ")")
                cond = tokens[i + 2:c]
                g = None
                if len(cond) >= 7 and cond[0] == "!" and cond[1] == "is_dummy" and cond[2] == "<" and cond[4] == ">" \
                        and cond[5:] == ["::", "value"]:
                    g = type_to_slot.get(cond[3])
                # statement or block
                j = c + 1
                if tokens[j] == "{":
                    e = match(tokens, j, "{", "}")
                    scan(tokens[j + 1:e], guards + ([g] if g else []))
                    i = e + 1
                else:
                    e = j
                    while tokens[e] != ";":
                        e += 1
                    scan(tokens[j:e + 1], guards + ([g] if g else []))
                    i = e + 1
                continue
            if t in cb_slots and (i == 0 or tokens[i - 1] not in (".", "::", "->")) \
                    and i + 1 < len(tokens) and tokens[i + 1] in (".", "("):
                (guarded if t in guards else unguarded).append(t)
            i += 1
    scan(tb, [])
    helper_refs = {}
    for h, (ps, hb) in helpers.items():
        refs = []
        for i, t in enumerate(hb):
            if t in cb_slots and t not in ps and (i == 0 or hb[i - 1] not in (".", "::", "->") or hb[i - 2:i] == ["this", "->"]):
                if t not in refs:
                    refs.append(t)
        helper_refs[h] = refs
    # the using-list of the macro
    mt = lex(join_continuations(text))
    j = " ".join(mt)
    m = re.search(r"\# define __TAPKEE_IMPLEMENTATION \( Method \) (.*?) \# define", j)
    if not m:
        raise TranslateError("__TAPKEE_IMPLEMENTATION not found")
    visible = re.findall(r"using Base :: (\w+) ;", m.group(1))
    return order, ftypes, type_to_slot, cb_slots, guarded, unguarded, helper_refs, visible, helpers


# ----------------------------------------------------------------------------- methods.hpp
def parse_dispatch(repo, type_to_slot):
    text = join_continuations(strip_comments(read(repo, METHODS)))
    toks = lex(text)
    j = " ".join(toks)
    # the macro
    if not re.search(r"\# define tapkee_method_handle \( X \) if \( method == X \) \{ auto implementation = "
                     r"X \#\# Implementation < [^;]*? > \( self \) ; implementation \. validate \( \) ; "
                     r"return implementation \. embed \( \) ; \}", j):
        raise TranslateError("tapkee_method_handle has an unexpected shape")
    start = j.find("TapkeeOutput embedUsing ( const DimensionReductionMethod & method )")
    if start < 0:
        raise TranslateError("DynamicImplementation::embedUsing not found")
    body = j[start:]
    first_handle = body.find("tapkee_method_handle ( ", body.find("# define"))
    first_handle = body.find("tapkee_method_handle ( ", first_handle + 10)
    guards = []
    for m in re.finditer(r"if \( method \. (\w+) && is_dummy < (\w+) > :: value \) \{ throw unsupported_method_error "
                         r"\( (\"[^\"]*\") \) ; \}", body):
        if m.start() > first_handle:
            raise TranslateError("a callback guard comes after the method dispatch")
        if m.group(2) not in type_to_slot:
            raise TranslateError("guard tests is_dummy<%s>, which is not the type of a slot" % m.group(2))
        guards.append((m.group(1), type_to_slot[m.group(2)], m.group(3)[1:-1]))
    n_if = len(re.findall(r"is_dummy <", body))
    if n_if != len(guards):
        raise TranslateError("embedUsing tests is_dummy in a form outside the grammar")
    dispatched = re.findall(r"(?<!define )tapkee_method_handle \( (\w+) \) ;", body)
    return guards, dispatched


# ----------------------------------------------------------------------------- routines
CONTROL = ("if", "for", "while", "switch", "catch", "return", "sizeof", "static_cast", "const_cast", "reinterpret_cast")


def lenient_param_names(toks):
    """parameter names; an unnamed parameter is "_" (it cannot be used in the body)"""
    names = []
    for prm in split_commas(toks):
        if not prm:
            continue
        if "=" in prm:
            prm = prm[:prm.index("=")]
        names.append(prm[-1] if len(prm) >= 2 and is_ident(prm[-1]) and prm[-2] not in ("<", ",", "::") else "_")
    return names


class Routines:
    """which member functions of a callback are invoked by the code a callback is PASSED to.

    Followed: free functions and member functions (by name; every overload / specialisation), objects declared with
    constructor arguments `T<...> v(args)`, temporaries `T<...>(args)`, functor temporaries `T<...>()(args)`: the
    constructor parameter is followed into the field it initialises and from there through every member function of
    the class.  What cannot be followed is reported as "?<what>" -- never dropped."""

    def __init__(self, repo):
        self.fns = {}       # name -> list of (params, body tokens)
        self.classes = {}   # name -> list of {"ctors": [(params, {field: param})], "bodies": [body tokens]}
        for g in ROUTINE_GLOBS:
            for p in sorted(glob.glob(os.path.join(repo, g))):
                try:
                    toks = lex(join_continuations(strip_comments(open(p).read())))
                except TranslateError:
                    continue
                self._scan(toks)
                self._scan_classes(toks)

    def add_function(self, name, params, body):
        self.fns.setdefault(name, []).append((params, body))

    def _scan(self, toks):
        i = 0
        n = len(toks)
        while i < n:
            name = None
            if is_ident(toks[i]) and i + 1 < n and toks[i + 1] == "(" and (i == 0 or toks[i - 1] not in (".", "->", "return", "=", ",", "(")):
                name, k = toks[i], i + 1
                if name == "operator" and i + 3 < n and toks[i + 2] == ")" and toks[i + 3] == "(":
                    name, k = "operator()", i + 3
            if name is not None:
                try:
                    c = match(toks, k, "(", ")")
                except TranslateError:
                    break
                j = c + 1
                while j < n and toks[j] in ("const", "noexcept"):
                    j += 1
                if j < n and toks[j] == "{" and name not in CONTROL:
                    try:
                        e = match(toks, j, "{", "}")
                        ps = lenient_param_names(toks[k + 1:c])
                    except TranslateError:
                        i += 1
                        continue
                    if name != "operator()":        # functors are reached through their class
                        self.fns.setdefault(name, []).append((ps, toks[j + 1:e]))
                    i = e + 1
                    continue
            i += 1

    def _scan_classes(self, toks):
        i, n = 0, len(toks)
        while i < n:
            if toks[i] in ("class", "struct") and i + 1 < n and is_ident(toks[i + 1]) and (i == 0 or toks[i - 1] not in ("<", ",")):
                name, j = toks[i + 1], i + 2
                try:
                    if j < n and toks[j] == "<":
                        j = match(toks, j, "<", ">") + 1
                    if j < n and toks[j] == ":":
                        while j < n and toks[j] not in ("{", ";"):
                            j = match(toks, j, "<", ">") + 1 if toks[j] == "<" else j + 1
                    if j < n and toks[j] == "{":
                        e = match(toks, j, "{", "}")
                        self._add_class(name, toks[j + 1:e])
                        i = j + 1          # nested classes are scanned too
                        continue
                except TranslateError:
                    pass
            i += 1

    def _add_class(self, name, body):
        info = {"ctors": [], "members": []}
        i, n = 0, len(body)
        while i < n:
            t = body[i]
            if is_ident(t) and i + 1 < n and body[i + 1] == "(" and (i == 0 or body[i - 1] not in (".", "->", "return", "=", ",", "(")) \
                    and t not in CONTROL:
                fname, k = t, i + 1
                if t == "operator" and i + 3 < n and body[i + 2] == ")" and body[i + 3] == "(":
                    fname, k = "operator()", i + 3
                try:
                    c = match(body, k, "(", ")")
                    j = c + 1
                    inits = {}
                    while j < n and body[j] in ("const", "noexcept"):
                        j += 1
                    if j < n and body[j] == ":" and fname == name:
                        j += 1
                        while j < n and body[j] != "{":
                            fld = body[j]
                            j += 1
                            if body[j] == "<":
                                j = match(body, j, "<", ">") + 1
                            if body[j] not in ("(", "{"):
                                raise TranslateError("initialiser list of " + name)
                            e2 = match(body, j, body[j], ")" if body[j] == "(" else "}")
                            arg = body[j + 1:e2]
                            if len(arg) == 1:
                                inits[fld] = arg[0]
                            j = e2 + 1
                            if j < n and body[j] == ",":
                                j += 1
                    if j < n and body[j] == "{":
                        e = match(body, j, "{", "}")
                        ps = lenient_param_names(body[k + 1:c])
                        if fname == name:
                            info["ctors"].append((ps, inits))
                        info["members"].append((fname, ps, body[j + 1:e]))
                        i = e + 1
                        continue
                except TranslateError:
                    pass
            i += 1
        self.classes.setdefault(name, []).append(info)

    # ---- following
    @staticmethod
    def _type_before(body, k):
        """body[k] == '(' of a call; if what precedes is `T<...>` or `T<...> v` or `T v`, return (T, is_declaration)"""
        j = k - 1
        decl = False
        if j >= 0 and is_ident(body[j]) and j - 1 >= 0 and (body[j - 1] == ">" or (is_ident(body[j - 1]) and body[j - 1] not in CONTROL)):
            decl = True
            j -= 1
        if j >= 0 and body[j] == ">":
            depth = 0
            while j >= 0:
                if body[j] == ">":
                    depth += 1
                elif body[j] == "<":
                    depth -= 1
                    if depth == 0:
                        break
                j -= 1
            j -= 1
        if j >= 0 and is_ident(body[j]) and (decl or body[k - 1] == ">"):
            return body[j]
        if decl and j >= 0 and is_ident(body[j]):
            return body[j]
        return None

    def _uses(self, body, p, depth, seen):
        """member functions invoked on the identifier p inside body"""
        out = set()
        i = 0
        while i < len(body):
            t = body[i]
            if t == p and (i == 0 or body[i - 1] not in (".", "->", "::")):
                nxt = body[i + 1] if i + 1 < len(body) else ""
                if nxt == "." and i + 3 < len(body) and body[i + 3] == "(":
                    out.add(body[i + 2])
                elif nxt == "(":
                    out.add("()")
                elif nxt in (".", "->") and i + 2 < len(body) and is_ident(body[i + 2]):
                    # a DATA MEMBER of the callback object is read (callback.distance_matrix ...): the object is used
                    # otherwise than through a member function call -- recorded by name, NOT as "unresolved", so that
                    # routines_invoke_own_role fails on it
                    out.add("field:" + body[i + 2])
                elif nxt in ("=", ";") and i > 0 and (is_ident(body[i - 1]) or body[i - 1] in ("&", ">")):
                    pass        # a declaration of the same name (shadowing is not modelled): ignored
                else:
                    # passed on: find the enclosing call
                    depth_par, k, pos = 0, i - 1, 0
                    while k >= 0:
                        if body[k] in (")", "]"):
                            depth_par += 1
                        elif body[k] in ("(", "["):
                            if depth_par == 0:
                                break
                            depth_par -= 1
                        elif body[k] == "," and depth_par == 0:
                            pos += 1
                        elif body[k] in (";", "{", "}"):
                            k = -1
                            break
                        k -= 1
                    if k <= 0 or body[k] != "(":
                        out.add("?expression")
                    elif body[k - 1] == ")" and k >= 2 and body[k - 2] == "(":
                        # T<...>()(args): a functor temporary
                        ty = self._type_before(body, k - 2)
                        out |= self.member_invoked(ty, "operator()", pos, depth + 1, seen) if ty else {"?functor"}
                    elif is_ident(body[k - 1]) and body[k - 1] not in CONTROL:
                        callee = body[k - 1]
                        ty = self._type_before(body, k)
                        if ty is not None and ty in self.classes:
                            out |= self.ctor_invoked(ty, pos, depth + 1, seen)
                        elif callee in self.fns:
                            out |= self.invoked(callee, pos, depth + 1, seen, self._nargs(body, k))
                        elif callee in self.classes:
                            out |= self.ctor_invoked(callee, pos, depth + 1, seen)
                        else:
                            out.add("?" + callee)
                    elif body[k - 1] == ">":
                        ty = self._type_before(body, k)
                        out |= self.ctor_invoked(ty, pos, depth + 1, seen) if ty in self.classes else {"?" + str(ty)}
                    else:
                        out.add("?expression")
            i += 1
        return out

    def invoked(self, fname, argpos, depth=0, seen=None, nargs=None):
        """member functions invoked on the argpos-th parameter of fname ("()" = call operator); nargs = number of
        arguments at the call site (selects among overloads when some overload has exactly that many parameters)"""
        seen = seen if seen is not None else set()
        if (fname, argpos, nargs) in seen:
            return set()
        if depth > 12:
            return {"?depth"}
        seen.add((fname, argpos, nargs))
        if fname not in self.fns:
            return {"?" + fname}
        cands = self.fns[fname]
        if nargs is not None and any(len(ps) == nargs for ps, _ in cands):
            cands = [(ps, b) for ps, b in cands if len(ps) == nargs]
        out = set()
        for ps, body in cands:
            if argpos >= len(ps):
                continue
            out |= self._uses(body, ps[argpos], depth, seen)
        return out

    @staticmethod
    def _nargs(body, k):
        """number of arguments of the call whose '(' is body[k]"""
        try:
            c = match(body, k, "(", ")")
        except TranslateError:
            return None
        return len([a for a in split_commas(body[k + 1:c]) if a])

    def member_invoked(self, cls, member, argpos, depth, seen):
        if (cls + "::" + member, argpos) in seen:
            return set()
        if depth > 12:
            return {"?depth"}
        seen.add((cls + "::" + member, argpos))
        if cls not in self.classes:
            return {"?" + str(cls)}
        out, found = set(), False
        for info in self.classes[cls]:
            for fname, ps, body in info["members"]:
                if fname == member and argpos < len(ps):
                    found = True
                    out |= self._uses(body, ps[argpos], depth, seen)
        return out if found else {"?%s::%s" % (cls, member)}

    def ctor_invoked(self, cls, argpos, depth, seen):
        """the argpos-th constructor argument of cls: into the field it initialises, then every member function"""
        if (cls + "::" + cls, argpos) in seen:
            return set()
        if depth > 12:
            return {"?depth"}
        seen.add((cls + "::" + cls, argpos))
        out, found = set(), False
        for info in self.classes.get(cls, []):
            for ps, inits in info["ctors"]:
                if argpos >= len(ps):
                    continue
                found = True
                p = ps[argpos]
                fields = [f for f, a in inits.items() if a == p]
                for fname, mps, body in info["members"]:
                    if fname == cls and mps == ps:
                        out |= self._uses(body, p, depth, seen)        # the constructor body itself
                    for f in fields:
                        if f not in mps:
                            out |= self._uses(body, f, depth, seen)
        return out if found else {"?%s::%s" % (cls, cls)}


# ----------------------------------------------------------------------------- methods/*.hpp
def parse_methods(repo, cb_slots, visible, helper_refs, routines):
    blocks = {}
    for p in sorted(glob.glob(os.path.join(repo, METHOD_DIR, "*.hpp"))):
        if os.path.basename(p) == "base.hpp":
            continue
        text = strip_comments(open(p).read())
        for m in re.finditer(r"__TAPKEE_IMPLEMENTATION\s*\(\s*(\w+)\s*\)(.*?)__TAPKEE_END_IMPLEMENTATION\s*\(\s*\)", text, re.S):
            if m.group(1) in blocks:
                raise TranslateError("method %s is implemented twice" % m.group(1))
            blocks[m.group(1)] = lex(m.group(2))
    out = {}
    for name, toks in blocks.items():
        refs, invoked = [], {}
        members = set(re.findall(r"\b(?:void|TapkeeOutput)\s+(\w+)\s*\(", " ".join(toks)))
        for i, t in enumerate(toks):
            if t in cb_slots:
                prev = toks[i - 1] if i else ""
                qualified = (prev == "->" and toks[i - 2] == "this") or (prev == "::" and toks[i - 2] == "Base")
                if prev in (".", "::", "->") and not qualified:
                    continue
                if t not in visible and not qualified:
                    continue
                if t not in refs:
                    refs.append(t)
                # evidence: which routine is it passed to / called on
                nxt = toks[i + 1] if i + 1 < len(toks) else ""
                inv = invoked.setdefault(t, set())
                if nxt == "." and toks[i + 3] == "(":
                    inv.add(toks[i + 2])
                elif nxt == "(":
                    inv.add("()")
                else:
                    depth_par, k, pos = 0, i - 1, 0
                    while k >= 0:
                        if toks[k] == ")":
                            depth_par += 1
                        elif toks[k] == "(":
                            if depth_par == 0:
                                break
                            depth_par -= 1
                        elif toks[k] == "," and depth_par == 0:
                            pos += 1
                        elif toks[k] in (";", "{", "}"):
                            k = -1
                            break
                        k -= 1
                    if k > 0 and is_ident(toks[k - 1]):
                        inv |= routines.invoked(toks[k - 1], pos, nargs=routines._nargs(toks, k))
                    else:
                        inv.add("?expression")
            if t in helper_refs and i + 1 < len(toks) and toks[i + 1] == "(" and (i == 0 or toks[i - 1] not in (".", "::", "->")):
                for r in helper_refs[t]:
                    if r not in refs:
                        refs.append(r)
        out[name] = (refs, {k: sorted(v) for k, v in invoked.items()})
    return out


# ----------------------------------------------------------------------------- callback classes
CALLBACK_FILES = ["include/tapkee/callbacks/dummy_callbacks.hpp", "include/tapkee/callbacks/eigen_callbacks.hpp",
                  "include/tapkee/callbacks/precomputed_callbacks.hpp"]
TRAITS = "include/tapkee/traits/callbacks_traits.hpp"


def parse_callback_classes(repo):
    """(class, has `typedef int dummy`, [(member function, body is a throw statement)])"""
    out = []
    for rel in CALLBACK_FILES:
        classes, _ = find_classes(strip_comments(read(repo, rel)))
        for name, _, body in classes:
            marked = False
            members = []
            for d in split_decls(body):
                if d[0] == "@access":
                    continue
                if d[-1] == ";":
                    if d[:-1] == ["typedef", "int", "dummy"]:
                        marked = True
                    elif d[0] == "typedef" and d[-2] == "dummy":
                        raise TranslateError("%s: `dummy` is declared, but not as `typedef int dummy`" % name)
                    elif d[0] == "using" and "dummy" in d:
                        marked = True
                    continue
                t = skip_template_header(d)
                k = t.index("(")
                fname = t[k - 1]
                if fname == name:
                    continue          # constructor
                if fname == ")" or not is_ident(fname):
                    fname = "operator()"
                    k = t.index("(", k + 1) if t[k + 1] == ")" else k
                close = match(t, k, "(", ")")
                j = close + 1
                while t[j] != "{":
                    j += 1
                e = match(t, j, "{", "}")
                fb = t[j + 1:e]
                members.append((fname if t[k - 1] != "operator" else "operator()", bool(fb) and fb[0] == "throw"))
            out.append((name, marked, members))
    # the trait itself
    tt = " ".join(lex(strip_comments(read(repo, TRAITS))))
    want = ["template < class T > class is_dummy {", "typedef char yes ;", "typedef long no ;",
            "template < typename C > static yes dummy ( typename C :: dummy * ) ;",
            "template < typename C > static no dummy ( ... ) ;" ,
            "static const bool value = ( sizeof ( dummy < T > ( 0 ) ) == sizeof ( yes ) ) ;"]
    tt = tt.replace(". . .", "...")
    for w in want:
        if w not in tt:
            raise TranslateError("is_dummy<T> has an unexpected shape (missing: %s)" % w)
    return out


# ----------------------------------------------------------------------------- wrappers
WRAPPER_FILE = "include/tapkee/neighbors/neighbors.hpp"
WRAPPER_NAMES = ("PlainDistance", "KernelDistance")


def parse_wrappers(repo):
    """PlainDistance / KernelDistance: (wrapper, [(member function, [member functions called on the wrapped callback])]).
    The wrapped callback must be stored by the constructor in ONE field and used only as `field.member(...)`."""
    classes, _ = find_classes(strip_comments(read(repo, WRAPPER_FILE)))
    out = []
    for want in WRAPPER_NAMES:
        cs = [c for c in classes if c[0] == want]
        if len(cs) != 1:
            raise TranslateError("wrapper %s not found in %s" % (want, WRAPPER_FILE))
        body = cs[0][2]
        field = None
        members = []
        fields = []
        for d in split_decls(body):
            if d[0] == "@access":
                continue
            if d[-1] == ";":
                if d[0] != "typedef" and "(" not in d:
                    fields.append(d[-2])
                continue
            t = skip_template_header(d)
            k = t.index("(")
            if t[k - 1] == want:                      # constructor: W(const Callback& cb) : field(cb) { }
                close = match(t, k, "(", ")")
                ps = param_names(t[k + 1:close], want)
                rest = " ".join(t[close + 1:])
                m = re.match(r": (\w+) \( (\w+) \) \{ \}$", rest)
                if len(ps) != 1 or not m or m.group(2) != ps[0]:
                    raise TranslateError("constructor of %s does not just store its argument" % want)
                field = m.group(1)
                continue
            if t[k - 1] == "operator":
                name = "operator()"
                k = t.index("(", k + 2)
            else:
                name = t[k - 1]
            close = match(t, k, "(", ")")
            j = close + 1
            while t[j] != "{":
                j += 1
            e = match(t, j, "{", "}")
            members.append((name, t[j + 1:e]))
        if field is None or fields != [field]:
            raise TranslateError("%s must have exactly one data member holding the callback (has %s)" % (want, fields))
        table = []
        for name, fb in members:
            called = []
            for i, x in enumerate(fb):
                if x == field:
                    if i + 3 < len(fb) and fb[i + 1] == "." and is_ident(fb[i + 2]) and fb[i + 3] == "(":
                        if fb[i + 2] not in called:
                            called.append(fb[i + 2])
                    elif i + 1 < len(fb) and fb[i + 1] == "(":
                        if "()" not in called:
                            called.append("()")
                    else:
                        raise TranslateError("%s::%s uses the wrapped callback other than by calling a member" % (want, name))
            table.append((name, called))
        out.append((want, table))
    return out


# ----------------------------------------------------------------------------- dereference sites
DEREF_GLOBS = ["include/tapkee/routines/*.hpp", "include/tapkee/utils/features.hpp", "include/tapkee/neighbors/*.hpp",
               "include/tapkee/methods/*.hpp"]
CB_MEMBERS = ("kernel", "distance", "vector")
UNARY_PREV = set("( , = { ; ! < > + - * / ? : [ && || == != <= >= return".split())


def iterator_names(toks):
    """identifiers declared with the bare type RandomAccessIterator (by value, const, reference)"""
    names = set()
    for i, t in enumerate(toks):
        if t == "RandomAccessIterator" and (i == 0 or toks[i - 1] not in ("class", "typename", "<", ",")) \
                and i + 1 < len(toks):
            j = i + 1
            while j < len(toks) and toks[j] in ("&", "const"):
                j += 1
            # `RandomAccessIterator a, b;` / parameter lists
            if j < len(toks) and is_ident(toks[j]) and toks[j] not in ("begin_", ) and (toks[i - 1] != "<" if i else True):
                if j + 1 < len(toks) and toks[j + 1] in (",", ")", ";", "=", "(", ":"):
                    names.add(toks[j])
    return names


NOT_A_TYPE = set("return else case goto new delete throw typename class struct const operator sizeof co_return".split())


def nearest_declared_type(toks, i):
    """the last identifier of the declared type in the nearest declaration of the identifier toks[i] that precedes
    position i (`T name =`, `const T& name,`, `A::B<C> name;` ...), or None when no declaration precedes.  A name
    that the file declares as a RandomAccessIterator somewhere may be re-used for something else in another function
    (`Neighbors::const_iterator iter`): the nearest declaration decides what the name is at this place."""
    name = toks[i]
    p = i - 1
    while p > 0:
        if toks[p] == name and p + 1 < len(toks) and toks[p + 1] in ("=", ";", ",", ")", ":", "(", "{"):
            q = p - 1
            while q >= 0 and toks[q] in ("&", "*", "&&"):
                q -= 1
            if q >= 0 and q != p - 1 and not (is_ident(toks[q]) or toks[q] == ">"):
                q = -1          # `x = * name ;` and the like: an expression, not a declaration
            if q >= 0 and toks[q] == ">":
                return "<template-id>"
            if q >= 0 and is_ident(toks[q]) and toks[q] not in NOT_A_TYPE and \
                    (q == 0 or toks[q - 1] not in (".", "->")):
                return toks[q]
        p -= 1
    return None


def enclosing_callee(toks, i):
    """tokens of the callee of the innermost call whose argument list contains position i (or None)"""
    depth, k = 0, i - 1
    while k >= 0:
        if toks[k] in (")", "]"):
            depth += 1
        elif toks[k] in ("(", "["):
            if depth == 0:
                break
            depth -= 1
        elif toks[k] in (";", "{", "}") and depth == 0:
            return None
        k -= 1
    if k <= 0 or toks[k] != "(":
        return None
    if k >= 3 and toks[k - 2] == "." and is_ident(toks[k - 1]) and is_ident(toks[k - 3]):
        return [toks[k - 3], ".", toks[k - 1]]
    if is_ident(toks[k - 1]):
        if toks[k - 1] in ("if", "while", "for", "return", "sizeof", "static_cast"):
            return enclosing_callee(toks, k)
        return [toks[k - 1]]
    if toks[k - 1] in UNARY_PREV or toks[k - 1] == "*":
        return enclosing_callee(toks, k)     # a parenthesised sub-expression
    return None


def parse_derefs(repo):
    """every place where a RandomAccessIterator is dereferenced: (file, line-ish snippet, goes to a callback?)"""
    out = []
    seen_files = []
    base_iterators = iterator_names(lex(join_continuations(strip_comments(read(repo, BASE)))))
    for g in DEREF_GLOBS:
        for p in sorted(glob.glob(os.path.join(repo, g))):
            rel = os.path.relpath(p, repo)
            if rel in seen_files:
                continue
            seen_files.append(rel)
            toks = lex(join_continuations(strip_comments(open(p).read())))
            its = iterator_names(toks)
            if rel.startswith(METHOD_DIR):
                its |= base_iterators      # the data range is inherited from ImplementationBase
            if not its:
                continue
            for i, t in enumerate(toks):
                site = None
                if t == "*" and (i == 0 or toks[i - 1] in UNARY_PREV) and i + 1 < len(toks):
                    if toks[i + 1] in its and (i + 2 >= len(toks) or toks[i + 2] not in ("(",)):
                        site = i
                    elif toks[i + 1] == "(" and i + 2 < len(toks) and toks[i + 2] in its:
                        site = i
                elif t in its and i + 1 < len(toks) and toks[i + 1] == "[" and (i == 0 or toks[i - 1] not in (".", "->", "::")):
                    site = i
                elif t in its and i + 1 < len(toks) and toks[i + 1] == "->":
                    site = i
                if site is None:
                    continue
                namepos = site if toks[site] in its else (site + 1 if toks[site + 1] in its else site + 2)
                declared = nearest_declared_type(toks, namepos)
                if declared is not None and declared != "RandomAccessIterator":
                    continue        # the nearest declaration gives this name another type: not a data iterator here
                callee = enclosing_callee(toks, site)
                ok = callee is not None and len(callee) == 3 and callee[2] in CB_MEMBERS
                lo = max(0, site - 6)
                snippet = " ".join(toks[lo:site + 8])
                out.append((rel.replace("include/tapkee/", ""), snippet, ok, " ".join(callee) if callee else "-"))
    return out, seen_files


def translate(repo):
    fields, traits, inits, methods = parse_defs(repo)
    order, ftypes, type_to_slot, cb_slots, guarded, unguarded, helper_refs, visible, helpers = parse_base(repo)
    guards, dispatched = parse_dispatch(repo, type_to_slot)
    routines = Routines(repo)
    for h, (hps, hb) in helpers.items():       # find_neighbors_with(d) ...: followed like any routine
        routines.add_function(h, hps, hb)
    impl = parse_methods(repo, cb_slots, visible, helper_refs, routines)
    mds = []
    for name, trait in methods:
        if name not in impl:
            # declared but never implemented: refs unknown -> every callback slot (worst case)
            refs, inv = list(cb_slots), {}
        else:
            refs, inv = impl[name]
        mds.append((name, trait, refs, inv))
    for name in impl:
        if name not in [m for m, _ in methods]:
            raise TranslateError("implementation block for undeclared method " + name)
    cbs = parse_callback_classes(repo)
    wrappers = parse_wrappers(repo)
    derefs, deref_files = parse_derefs(repo)
    return {"trait_fields": fields, "traits": traits, "method_inits": inits, "guards": guards,
            "base_refs": guarded, "base_unguarded": unguarded, "methods": mds, "dispatched": dispatched,
            "callback_classes": cbs, "wrappers": wrappers, "derefs": derefs, "deref_files": deref_files}


def render(t):
    def b(x):
        return "true" if x else "false"
    out = []
    out.append("(* GENERATED by translate/t_use.py from include/tapkee/defines/methods.hpp, methods.hpp, methods/base.hpp,")
    out.append("   methods/*.hpp, routines/*.hpp, neighbors/*.hpp (md_invoked) -- do not edit. *)")
    out.append("From Coq Require Import List String.")
    out.append("From TK Require Import Chain_Model.")
    out.append("Import ListNotations.")
    out.append("Local Open Scope string_scope.")
    out.append("")
    out.append("Definition uses_gen : uses_tables := {|")
    out.append("  u_trait_fields := %s;" % coq_strs(t["trait_fields"]))
    out.append("  u_traits := %s;" % coq_list(["(%s, %s)" % (q(n), coq_list([b(x) for x in v])) for n, v in t["traits"]]))
    out.append("  u_method_inits := %s;" % coq_list(["(%s, %s)" % (q(a), q(c)) for a, c in t["method_inits"]]))
    out.append("  u_guards := %s;" % coq_list(["(%s, %s, %s)" % (q(a), q(s), q(m)) for a, s, m in t["guards"]]))
    out.append("  u_base_refs := %s;" % coq_strs(t["base_refs"]))
    out.append("  u_base_unguarded := %s;" % coq_strs(t["base_unguarded"]))
    ms = []
    for name, trait, refs, inv in t["methods"]:
        ms.append("    {| md_name := %s; md_trait := %s; md_refs := %s;\n       md_invoked := %s |}"
                  % (q(name), q(trait), coq_strs(refs),
                     coq_list(["(%s, %s)" % (q(s), coq_strs(inv[s])) for s in refs if s in inv])))
    out.append("  u_methods := [\n" + ";\n".join(ms) + "];")
    out.append("  u_dispatched := %s;" % coq_strs(t["dispatched"]))
    out.append("  u_callback_classes := [\n" + ";\n".join(
        "    (%s, %s, %s)" % (q(n), b(mk), coq_list(["(%s, %s)" % (q(f), b(th)) for f, th in ms_]))
        for n, mk, ms_ in t["callback_classes"]) + "];")
    out.append("  u_wrappers := " + coq_list(
        ["(%s, %s)" % (q(w), coq_list(["(%s, %s)" % (q(mn), coq_strs(cs)) for mn, cs in tb])) for w, tb in t["wrappers"]]) + ";")
    out.append("  u_deref_files := %s;" % coq_strs([f.replace("include/tapkee/", "") for f in t["deref_files"]]))
    out.append("  u_derefs := [\n" + ";\n".join(
        "    (%s, %s, %s)" % (q(f), q(sn), b(ok)) for f, sn, ok, _ in t["derefs"]) + "] |}.")
    out.append("")
    return "\n".join(out)


# ----------------------------------------------------------------------------- self test
MUTATIONS = [
    (DEFS, r'ManifoldSculpting\("Manifold Sculpting", RequiresDistanceAndFeatures\)',
     'ManifoldSculpting("Manifold Sculpting", RequiresFeatures)', "F13 re-created: ManifoldSculpting declares features only"),
    (DEFS, r"RequiresKernel\{true, false, false\}", "RequiresKernel{true, true, false}", "RequiresKernel also asks for distance"),
    (DEFS, r", needs_distance\(traits\.needs_distance\)", ", needs_distance(traits.needs_kernel)",
     "DimensionReductionMethod copies the wrong trait"),
    (METHODS, r"method\.needs_distance && is_dummy<DistanceCallback>", "method.needs_distance && is_dummy<KernelCallback>",
     "distance guard tests the kernel type"),
    (METHODS, r"\n\s*tapkee_method_handle\(Isomap\);", "\n", "Isomap is no longer dispatched"),
    (BASE, r"if \(!is_dummy<FeaturesCallback>::value\)\s*current_dimension = features\.dimension\(\);\s*else\s*current_dimension = 0;",
     "current_dimension = features.dimension();", "base constructor calls features.dimension() unguarded"),
    (METHOD_DIR + "/isomap.hpp", r"find_neighbors_with\(plain_distance\)", "find_neighbors_with(kernel_distance)",
     "Isomap searches neighbours with the kernel"),
    (METHOD_DIR + "/pca.hpp", r"compute_mean\(begin, end, features, current_dimension\)", "compute_mean(begin, end, this->features, current_dimension)",
     None),
    (METHOD_DIR + "/laplacian_eigenmaps.hpp", r"compute_laplacian\(begin, end, neighbors, distance,", "compute_laplacian(begin, end, neighbors, this->kernel,",
     "LaplacianEigenmaps passes the kernel through this->"),
    ("include/tapkee/utils/features.hpp", r"matrix\.col\(iter - begin\)\.array\(\) = feature_vector;", "matrix.col(*iter).array() = feature_vector;",
     "dense_matrix_from_features uses the dereferenced iterator as a column index"),
    ("include/tapkee/routines/spe.hpp", r"callback\.distance\(\*i_iter, \*j_iter\)", "callback.distance(*i_iter, *j_iter) + 0 * (*i_iter)",
     "SPE does arithmetic on a dereferenced iterator"),
    ("include/tapkee/neighbors/neighbors.hpp", r"return callback\.distance\(\*l, \*r\);\s*\}\s*typedef DistanceType type;",
     "return callback.kernel(*l, *r);\n    }\n    typedef DistanceType type;", "PlainDistance::distance asks the wrapped callback for kernel()"),
    ("include/tapkee/callbacks/dummy_callbacks.hpp", r"template <class Data> struct dummy_kernel_callback\s*\{\s*typedef int dummy;",
     "template <class Data> struct dummy_kernel_callback\n{\n", "dummy_kernel_callback loses its dummy marker"),
    ("include/tapkee/callbacks/eigen_callbacks.hpp", r"struct eigen_distance_callback\s*\{", "struct eigen_distance_callback\n{\n    typedef int dummy;",
     "eigen_distance_callback is marked as a dummy"),
    ("include/tapkee/traits/callbacks_traits.hpp", r"typename C::dummy\*", "typename C::dummy_t*", "is_dummy looks for another typedef"),
    (METHOD_DIR + "/diffusion_map.hpp", r"compute_diffusion_matrix\(begin, end, distance,", "compute_diffusion_matrix(begin, end, Base::kernel,",
     "DiffusionMap passes Base::kernel"),
    (METHOD_DIR + "/pca.hpp", r"DenseVector mean_vector = compute_mean\(", "IndexType first = *begin;\n        DenseVector mean_vector = compute_mean(",
     "PCA reads the first data object as an index"),
    ("include/tapkee/routines/multidimensional_scaling.hpp", r"ScalarType d = callback\.distance\(begin\[i_index_iter\], begin\[j_index_iter\]\);",
     "ScalarType d = callback.distance(begin[i_index_iter], begin[j_index_iter]) + 0 * callback.distance_matrix(0, 0);",
     "MDS reads a data member of the distance callback object (a fast path keyed on the callback's type)"),
    (BASE, r"return find_neighbors\(parameters\[neighbors_method\], begin, end, d,", "return find_neighbors(parameters[neighbors_method], begin, end, kernel_distance,",
     "find_neighbors_with ignores its argument and uses kernel_distance"),
]


def self_test(repo):
    base = render(translate(repo))
    ok, seen = True, 0
    files = [DEFS, METHODS, BASE] + [os.path.relpath(p, repo) for p in glob.glob(os.path.join(repo, METHOD_DIR, "*.hpp"))]
    for g in ROUTINE_GLOBS + DEREF_GLOBS:
        files += [os.path.relpath(p, repo) for p in glob.glob(os.path.join(repo, g))]
    files += CALLBACK_FILES + [TRAITS, WRAPPER_FILE]
    for rel, pat, rep, desc in MUTATIONS:
        tmp = tempfile.mkdtemp(prefix="t_use_selftest_")
        try:
            for r in set(files):
                os.makedirs(os.path.dirname(os.path.join(tmp, r)), exist_ok=True)
                shutil.copy(os.path.join(repo, r), os.path.join(tmp, r))
            p = os.path.join(tmp, rel)
            new, n = re.subn(pat, rep, open(p).read(), count=1)
            if n != 1:
                print("SELF-TEST: pattern not found (source moved on?): %s" % pat)
                ok = False
                continue
            open(p, "w").write(new)
            try:
                changed = render(translate(tmp)) != base
                how = "table changed" if changed else "table unchanged"
            except TranslateError as ex:
                changed, how = True, "TranslateError: " + str(ex)[:90]
            if desc is None:
                if changed:
                    print("SELF-TEST FAIL: harmless edit of %s changed the output (%s)" % (rel, how))
                    ok = False
                else:
                    print("self-test ok : harmless edit of %s -> %s" % (rel, how))
            elif not changed:
                print("SELF-TEST FAIL: %s -> output unchanged" % desc)
                ok = False
            else:
                seen += 1
                print("self-test ok : %s -> %s" % (desc, how))
        finally:
            shutil.rmtree(tmp, ignore_errors=True)
    print("t_use self-test: %s (%d mutations seen)" % ("PASS" if ok else "FAIL", seen))
    return ok


def main():
    ap = argparse.ArgumentParser()
    ap.add_argument("--repo", default=os.environ.get("VERIF_REPO", "/repo"))
    ap.add_argument("--out", default=None)
    ap.add_argument("--stdout", action="store_true")
    ap.add_argument("--self-test", action="store_true")
    a = ap.parse_args()
    if a.self_test:
        sys.exit(0 if self_test(a.repo) else 1)
    try:
        text = render(translate(a.repo))
    except TranslateError as ex:
        print("TranslateError: %s" % ex, file=sys.stderr)
        sys.exit(2)
    if a.stdout:
        sys.stdout.write(text)
        return
    out = a.out or os.path.join(os.path.dirname(os.path.dirname(os.path.abspath(__file__))), "coq", "gen", "Uses.v")
    old = open(out).read() if os.path.exists(out) else None
    if old != text:
        open(out, "w").write(text)
        print("wrote " + out)
    else:
        print("unchanged " + out)


if __name__ == "__main__":
    main()
