#!/usr/bin/env python3
"""T-eig: extract the eigenpair *selection* expressions from tapkee's solver front-ends.

    python3 translate/t_eig.py [--repo /repo] [--out coq/gen/EigSelect.v]
    python3 translate/t_eig.py --self-test

Reads   include/tapkee/routines/eigendecomposition.hpp
        include/tapkee/routines/generalized_eigendecomposition.hpp
        include/tapkee/defines/methods.hpp            (strategy -> skip table)
and writes a Coq table (types from coq/Mat_EigSelect.v) with one `branch` per
`return EigendecompositionResult(<eigenvectors expr>, <eigenvalues expr>)` site:
the chain of .rightCols/.leftCols/.middleCols applied to the eigenvector matrix, the chain of
.tail/.head/.segment applied to the eigenvalue vector, whether the site is the
`MatrixOperationType::largest` arm, and the size of the object the chain is applied to
(N for the dense solvers, the column count of the random test matrix for the randomized one).
Code under `#ifdef TAPKEE_WITH_ARPACK` / `TAPKEE_WITH_VIENNACL` is not part of the build that is
verified and is skipped.  Anything the small grammar below does not understand raises
TranslateError (the check reports "no longer shown" and searches).
"""
import argparse
import os
import re
import sys
import tempfile
import shutil

FILES = ["include/tapkee/routines/eigendecomposition.hpp",
         "include/tapkee/routines/generalized_eigendecomposition.hpp"]
METHODS = "include/tapkee/defines/methods.hpp"


class TranslateError(Exception):
    pass


def strip_comments(s):
    s = re.sub(r"/\*.*?\*/", lambda m: " " * len(m.group(0)), s, flags=re.S)
    s = re.sub(r"//[^\n]*", "", s)
    return s


def strip_ifdef(s, macros=("TAPKEE_WITH_ARPACK", "TAPKEE_WITH_VIENNACL")):
    """remove #ifdef M ... #endif regions (nesting aware) for macros that are off in our build"""
    out, stack = [], []
    for line in s.splitlines():
        t = line.strip()
        m = re.match(r"#\s*ifdef\s+(\w+)", t)
        if m:
            stack.append(m.group(1) in macros)
            continue
        if re.match(r"#\s*if(n?def)?\b", t):
            stack.append(False)
            continue
        if re.match(r"#\s*else\b", t):
            if stack:
                stack[-1] = not stack[-1] if stack[-1] in (True,) else stack[-1]
            continue
        if re.match(r"#\s*endif\b", t):
            if stack:
                stack.pop()
            continue
        if any(stack):
            continue
        out.append(line)
    return "\n".join(out)


def match_brace(s, i, open_c="{", close_c="}"):
    """s[i] == open_c; return index of the matching close"""
    depth = 0
    for j in range(i, len(s)):
        if s[j] == open_c:
            depth += 1
        elif s[j] == close_c:
            depth -= 1
            if depth == 0:
                return j
    raise TranslateError("unbalanced " + open_c)


def split_args(s):
    args, depth, cur = [], 0, ""
    for ch in s:
        if ch in "(<[":
            depth += 1
        elif ch in ")>]":
            depth -= 1
        if ch == "," and depth == 0:
            args.append(cur.strip())
            cur = ""
        else:
            cur += ch
    if cur.strip():
        args.append(cur.strip())
    return args


def parse_iexpr(s):
    """target_dimension | skip | literal | a + b   ->  Coq iexpr term"""
    s = s.strip()
    while s.startswith("(") and match_brace(s, 0, "(", ")") == len(s) - 1:
        s = s[1:-1].strip()
    # split on top-level '+'
    depth, parts, cur = 0, [], ""
    for ch in s:
        if ch == "(":
            depth += 1
        elif ch == ")":
            depth -= 1
        if ch == "+" and depth == 0:
            parts.append(cur)
            cur = ""
        else:
            cur += ch
    parts.append(cur)
    if len(parts) > 1:
        t = parse_iexpr(parts[0])
        for p in parts[1:]:
            t = "(EAdd %s %s)" % (t, parse_iexpr(p))
        return t
    if s == "target_dimension":
        return "ETarget"
    if s == "skip":
        return "ESkip"
    if re.fullmatch(r"\d+", s):
        return "(EConst %d)" % int(s)
    raise TranslateError("integer expression not understood: %r" % s)


MAT_OPS = {"rightCols": "BRight", "leftCols": "BLeft", "middleCols": "BSegment"}
VEC_OPS = {"tail": "BRight", "head": "BLeft", "segment": "BSegment"}


def parse_chain(expr, table):
    """<base> (.op(args))*  ->  (base text, [Coq blockop terms])"""
    expr = expr.strip()
    ops = []
    while True:
        m = re.search(r"\.\s*(\w+)\s*\(([^()]*(?:\([^()]*\)[^()]*)*)\)\s*$", expr)
        if not m or m.group(1) not in table:
            break
        name, args = m.group(1), split_args(m.group(2))
        ctor = table[name]
        if ctor == "BSegment":
            if len(args) != 2:
                raise TranslateError("%s expects 2 arguments: %r" % (name, expr))
            ops.append("BSegment %s %s" % (parse_iexpr(args[0]), parse_iexpr(args[1])))
        else:
            if len(args) != 1:
                raise TranslateError("%s expects 1 argument: %r" % (name, expr))
            ops.append("%s %s" % (ctor, parse_iexpr(args[0])))
        expr = expr[:m.start()].strip()
    ops.reverse()
    # anything else that looks like a block selector we do not know is an error, not silence
    if re.search(r"\.\s*(block|col|row|topRows|bottomRows|middleRows|reverse|colwise|rowwise)\s*\(", expr):
        raise TranslateError("unknown selector in %r" % expr)
    return expr, ops


def parse_functions(src, fname):
    """yield (function name, body) for the *_impl_(dense|randomized|arpack) templates"""
    for m in re.finditer(r"EigendecompositionResult\s+((?:generalized_)?eigendecomposition_impl_\w+)\s*\(", src):
        name = m.group(1)
        close = match_brace(src, m.end() - 1, "(", ")")
        k = close + 1
        while k < len(src) and src[k].isspace():
            k += 1
        if k >= len(src) or src[k] != "{":
            continue            # a declaration, not a definition
        end = match_brace(src, k)
        yield name, src[k:end + 1]


def parse_arm(body_arm, fn_body, fname, fn, largest):
    ms = list(re.finditer(r"return\s+EigendecompositionResult\s*\(", body_arm))
    out = []
    for m in ms:
        close = match_brace(body_arm, m.end() - 1, "(", ")")
        args = split_args(body_arm[m.end():close])
        if len(args) == 0:
            continue
        if len(args) != 2:
            raise TranslateError("%s: EigendecompositionResult with %d arguments" % (fn, len(args)))
        vec_expr, val_expr = args
        # resolve a local variable holding the selected eigenvectors
        if re.fullmatch(r"\w+", vec_expr):
            dm = re.search(r"DenseMatrix\s+%s\s*=\s*(.*?);" % re.escape(vec_expr), body_arm, re.S)
            if not dm:
                raise TranslateError("%s: definition of %s not found" % (fn, vec_expr))
            vec_expr = " ".join(dm.group(1).split())
        vbase, cols = parse_chain(vec_expr, MAT_OPS)
        lbase, vals = parse_chain(" ".join(val_expr.split()), VEC_OPS)
        if not re.search(r"eigenvectors\s*\(\s*\)", vbase):
            raise TranslateError("%s: eigenvector base not understood: %r" % (fn, vbase))
        if not re.search(r"eigenvalues\s*\(\s*\)\s*$", lbase):
            raise TranslateError("%s: eigenvalue base not understood: %r" % (fn, lbase))
        # size of the base object
        sm = re.match(r"\(?\s*(\w+)\s*\.\s*eigenvectors", vbase)
        rm = re.match(r"\(\s*(\w+)\s*\*\s*(\w+)\s*\.\s*eigenvectors\s*\(\s*\)\s*\)$", vbase)
        if rm:
            # (Y * small.eigenvectors()): as many columns as the random test matrix
            om = re.search(r"DenseMatrix\s+O\s*\(\s*([^,]+),\s*([^;]+)\)\s*;", fn_body)
            if not om:
                raise TranslateError("%s: size of the random test matrix not found" % fn)
            base = "BaseExpr %s" % parse_iexpr(om.group(2))
        elif sm:
            solver = sm.group(1)
            if not re.search(r"(DenseSelfAdjointEigenSolver|GeneralizedSelfAdjointEigenSolver\s*<[^>]*>)\s+%s\s*\(" % solver, fn_body):
                raise TranslateError("%s: solver object %s not understood" % (fn, solver))
            base = "BaseN"
        else:
            raise TranslateError("%s: eigenvector base not understood: %r" % (fn, vbase))
        out.append({"file": os.path.basename(fname), "fn": fn, "largest": largest, "base": base,
                    "cols": cols, "vals": vals})
    return out


def parse_file(path, rel):
    src = strip_ifdef(strip_comments(open(path).read()))
    branches = []
    for fn, body in parse_functions(src, rel):
        m = re.search(r"if\s*\(\s*MatrixOperationType::largest\s*\)", body)
        if not m:
            raise TranslateError("%s: no `if (MatrixOperationType::largest)`" % fn)
        k = body.index("{", m.end())
        e1 = match_brace(body, k)
        arm1 = body[k:e1 + 1]
        em = re.match(r"\s*else\s*", body[e1 + 1:])
        if not em:
            raise TranslateError("%s: no else arm" % fn)
        k2 = body.index("{", e1 + 1)
        e2 = match_brace(body, k2)
        arm2 = body[k2:e2 + 1]
        b1 = parse_arm(arm1, body, rel, fn, True)
        b2 = parse_arm(arm2, body, rel, fn, False)
        if not b1 or not b2:
            raise TranslateError("%s: an arm returns no selection" % fn)
        branches += b1 + b2
    if not branches:
        raise TranslateError("no selection sites found in " + rel)
    return branches


def parse_skips(path):
    src = strip_comments(open(path).read())
    out = []
    for m in re.finditer(r"static\s+const\s+EigendecompositionStrategy\s+(\w+)\s*\(\s*\"[^\"]*\"\s*,\s*(\d+)\s*\)", src):
        out.append((m.group(1), int(m.group(2))))
    if not out:
        raise TranslateError("no EigendecompositionStrategy constants found")
    return out


def parse(repo):
    branches = []
    for rel in FILES:
        branches += parse_file(os.path.join(repo, rel), rel)
    return {"branches": branches, "skips": parse_skips(os.path.join(repo, METHODS))}


def emit(tab):
    L = ["(* GENERATED by translate/t_eig.py from routines/eigendecomposition.hpp,",
         "   routines/generalized_eigendecomposition.hpp and defines/methods.hpp. DO NOT EDIT. *)",
         "Require Import List String.",
         "From TK Require Import Mat_EigSelect.",
         "Import ListNotations.",
         "Open Scope string_scope.",
         "",
         "Definition eig_table : list branch := ["]
    rows = []
    for b in tab["branches"]:
        rows.append("  {| b_file := \"%s\"; b_fn := \"%s\"; b_largest := %s; b_base := %s;\n"
                    "     b_cols := [%s];\n     b_vals := [%s] |}" % (
                        b["file"], b["fn"], "true" if b["largest"] else "false", b["base"],
                        "; ".join(b["cols"]), "; ".join(b["vals"])))
    L.append(";\n".join(rows))
    L.append("].")
    L.append("")
    L.append("Definition skip_table : list (string * nat) := [")
    L.append(";\n".join("  (\"%s\", %d)" % s for s in tab["skips"]))
    L.append("].")
    return "\n".join(L) + "\n"


def write_if_changed(path, text):
    os.makedirs(os.path.dirname(path), exist_ok=True)
    if os.path.exists(path) and open(path).read() == text:
        return False
    tmp = path + ".tmp%d" % os.getpid()
    open(tmp, "w").write(text)
    os.replace(tmp, path)
    return True


def self_test(repo):
    """mutate a scratch copy of the sources; every mutation must change the table (or be rejected)"""
    base = emit(parse(repo))
    muts = [
        (FILES[0], "solver.eigenvectors().rightCols(target_dimension)", "solver.eigenvectors().leftCols(target_dimension)"),
        (FILES[0], "solver.eigenvalues().tail(target_dimension)", "solver.eigenvalues().head(target_dimension)"),
        (FILES[0], ".leftCols(target_dimension + skip).rightCols(target_dimension)", ".leftCols(target_dimension).rightCols(target_dimension)"),
        (FILES[0], "(Y * eigenOfB.eigenvectors()).rightCols(target_dimension)", "(Y * eigenOfB.eigenvectors()).leftCols(target_dimension)"),
        (FILES[0], "DenseMatrix O(wm.rows(), target_dimension + skip)", "DenseMatrix O(wm.rows(), target_dimension + skip + 2)"),
        (FILES[1], "solver.eigenvalues().tail(target_dimension)", "solver.eigenvalues().tail(target_dimension + 1)"),
        (METHODS, "SmallestEigenvalues(\"Smallest eigenvalues\", 1)", "SmallestEigenvalues(\"Smallest eigenvalues\", 2)"),
    ]
    # the eigenvalue segment: whichever of the two forms is present must be seen to change
    src0 = open(os.path.join(repo, FILES[0])).read()
    if "segment(skip, skip + target_dimension)" in src0:
        muts.append((FILES[0], "segment(skip, skip + target_dimension)", "segment(skip, target_dimension)"))
    else:
        muts.append((FILES[0], "segment(skip, target_dimension)", "segment(skip, skip + target_dimension)"))
    ok = True
    for rel, old, new in muts:
        d = tempfile.mkdtemp(prefix="t_eig_selftest_")
        try:
            for r in FILES + [METHODS]:
                os.makedirs(os.path.dirname(os.path.join(d, r)), exist_ok=True)
                shutil.copy(os.path.join(repo, r), os.path.join(d, r))
            p = os.path.join(d, rel)
            s = open(p).read()
            if old not in s:
                print("self-test: pattern not present (source drifted?): %r" % old)
                ok = False
                continue
            open(p, "w").write(s.replace(old, new, 1))
            try:
                out = emit(parse(d))
                changed = out != base
            except TranslateError as ex:
                changed = True
            print("self-test: %-70s -> %s" % (old[:70], "table changed" if changed else "NOT DETECTED"))
            ok = ok and changed
        finally:
            shutil.rmtree(d, ignore_errors=True)
    return ok


def main():
    here = os.path.dirname(os.path.dirname(os.path.abspath(__file__)))
    ap = argparse.ArgumentParser()
    ap.add_argument("--repo", default=os.environ.get("VERIF_REPO", "/repo"))
    ap.add_argument("--out", default=os.path.join(here, "coq", "gen", "EigSelect.v"))
    ap.add_argument("--self-test", action="store_true")
    ap.add_argument("--print", action="store_true")
    a = ap.parse_args()
    if a.self_test:
        sys.exit(0 if self_test(a.repo) else 1)
    text = emit(parse(a.repo))
    if a.print:
        sys.stdout.write(text)
        return
    changed = write_if_changed(a.out, text)
    print("t_eig: %s %s" % (a.out, "rewritten" if changed else "unchanged"))


if __name__ == "__main__":
    main()
