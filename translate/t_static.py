#!/usr/bin/env python3
"""T-static — inventory of everything under <repo>/include whose lifetime exceeds one embed() call
or that draws from a process-wide random stream (property C12, "no hidden state").

How: one translation unit that includes EVERY header under include/ is handed to clang-query-14
(clang AST matchers, the compile flags of vlib).  Matchers, restricted to declarations expanded in
files under include/:

  static-local     varDecl(isStaticLocal())                      function-local `static` objects
  static-member    varDecl(hasStaticStorageDuration(), hasParent(cxxRecordDecl()))
  global           varDecl(hasGlobalStorage()) that is neither of the above (namespace scope)
  rand-call        declRefExpr to ::rand / ::srand / ::random / ::drand48 / ::rand_r (std:: aliases included)
  rng-object       any variable whose type is std::random_device or a standard engine
  field (mutable)  fieldDecl whose AST dump carries the `mutable` keyword

and three textual scans of the comment-stripped headers: "write" (assignments to the non-const namespace-scope
objects), "rand-user" (calls of the wrappers uniform_random / gaussian_random / uniform_random_index(_bounded) /
random_shuffle of defines/random.hpp, counted per file) and "logger-read" (any use of Logging::instance() other
than a message_<level>(..) call).

Templates are covered through their patterns (uninstantiated bodies are matched too); instantiations
of the same declaration collapse because entries are keyed by (file, kind, name), never by line
number, so that moving code around does not change the table.  Const-qualified variables get the
suffix "-const" (kind "global-const" etc.): they are listed, but cannot carry information from one
call to the next.  rand-call entries are counted per file ("rand#4").

Not seen: code under preprocessor branches that are inactive with vlib's flags (ARPACK, ViennaCL,
the non-LGPL build without the cover tree); the test/ and src/ trees.  This is recorded in the
trusted base of the check.

Output: coq/gen/Statics.v  (Definition inventory : list (string * string * string)).

usage: t_static.py [--repo DIR] [--out FILE] [--print] [--selftest]
"""
import os
import re
import shutil
import subprocess
import sys
import tempfile

HERE = os.path.dirname(os.path.abspath(__file__))
VERIF = os.path.dirname(HERE)

FLAGS = ["-std=gnu++2b", "-fopenmp", "-DFMT_HEADER_ONLY=1", "-DTAPKEE_USE_LGPL_COVERTREE",
         "-DTAPKEE_VERIF", "-isystem", "/root/miniconda/include", "-isystem", "/usr/include/eigen3", "-w"]

RAND_NAMES = '"::rand", "::srand", "::std::rand", "::std::srand", "::random", "::srandom", ' \
             '"::drand48", "::srand48", "::lrand48", "::rand_r"'
RNG_TYPES = "random_device|mersenne_twister_engine|linear_congruential_engine|" \
            "subtract_with_carry_engine|discard_block_engine|shuffle_order_engine|independent_bits_engine"


RAND_WRAPPERS = ["uniform_random_index_bounded", "uniform_random_index", "uniform_random", "gaussian_random",
                 "random_shuffle", "verif_random_shuffle"]


class TranslateError(Exception):
    pass


def queries(incl_re):
    f = 'isExpansionInFileMatching("%s")' % incl_re
    return "\n".join([
        "set output diag",
        "enable output dump",
        "set bind-root false",
        'm varDecl(isStaticLocal(), %s).bind("static-local")' % f,
        'm varDecl(hasStaticStorageDuration(), hasParent(cxxRecordDecl()), %s).bind("static-member")' % f,
        'm varDecl(hasGlobalStorage(), unless(isStaticLocal()), unless(hasParent(cxxRecordDecl())), %s)'
        '.bind("global")' % f,
        'm declRefExpr(to(functionDecl(hasAnyName(%s))), %s).bind("rand-call")' % (RAND_NAMES, f),
        'm varDecl(hasType(hasUnqualifiedDesugaredType(recordType(hasDeclaration(namedDecl(matchesName('
        '"%s")))))), %s).bind("rng-object")' % (RNG_TYPES, f),
        'm fieldDecl(%s).bind("field")' % f,
    ]) + "\n"


def run_query(repo, workdir):
    inc = os.path.join(repo, "include")
    if not os.path.isdir(inc):
        raise TranslateError("no include/ directory under " + repo)
    headers = []
    for root, dirs, files in sorted(os.walk(inc)):
        dirs.sort()
        for f in sorted(files):
            if f.endswith((".hpp", ".h")):
                headers.append(os.path.relpath(os.path.join(root, f), inc))
    tu = os.path.join(workdir, "t_static_tu.cpp")
    with open(tu, "w") as fh:
        fh.write("#include <tapkee/tapkee.hpp>\n")
        for h in headers:
            fh.write("#include <%s>\n" % h)
        fh.write("int main() { return 0; }\n")
    qf = os.path.join(workdir, "t_static_queries.txt")
    incl_re = re.escape(os.path.realpath(inc)).replace("\\/", "/") + "/"
    with open(qf, "w") as fh:
        fh.write(queries(incl_re))
    cmd = ["clang-query-14", "-f", qf, tu, "--"] + FLAGS + ["-I", os.path.realpath(inc)]
    try:
        p = subprocess.run(cmd, capture_output=True, text=True, timeout=600)
    except subprocess.TimeoutExpired:
        raise TranslateError("clang-query timed out")
    out = p.stdout + "\n" + p.stderr
    if re.search(r"(?m)^.*\berror: ", out) and "matches." not in out:
        raise TranslateError("clang-query could not parse the headers:\n" + out[-3000:])
    if re.search(r"(?m)^\S+:\d+:\d+: (fatal )?error: ", out):
        errs = re.findall(r"(?m)^\S+:\d+:\d+: (?:fatal )?error: .*$", out)
        raise TranslateError("the headers do not compile with clang: " + "; ".join(errs[:5]))
    if out.count("matches.") + out.count("match.") < 6:
        raise TranslateError("clang-query did not run all matchers:\n" + out[-2000:])
    return out, os.path.realpath(inc)


NOTE = re.compile(r'^(\S+?):(\d+):(\d+): note: "([\w-]+)" binds here')


def parse(out, inc):
    """-> sorted list of (file, kind, name)"""
    lines = out.splitlines()
    entries = set()
    rand = {}
    i = 0
    while i < len(lines):
        m = NOTE.match(lines[i])
        if not m:
            i += 1
            continue
        path, line, col, bind = m.group(1), int(m.group(2)), int(m.group(3)), m.group(4)
        rel = os.path.relpath(os.path.realpath(path), inc)
        # the dump line follows 'Binding for "..":'
        dump = ""
        j = i + 1
        while j < len(lines) and j < i + 8:
            if lines[j].startswith("Binding for"):
                dump = lines[j + 1] if j + 1 < len(lines) else ""
                break
            j += 1
        i = j + 1
        if bind == "rand-call":
            mm = re.search(r"Function 0x[0-9a-f]+ '(\w+)'", dump)
            fn = mm.group(1) if mm else "rand"
            rand.setdefault((rel, fn), set()).add((line, col))
            continue
        if bind == "field":
            if re.search(r"'\s+mutable\b", dump) or dump.rstrip().endswith(" mutable"):
                mm = re.search(r"> (?:col|line):[\d:]+ (?:referenced |used |implicit )*(\w+) '", dump)
                entries.add((rel, "mutable-member", mm.group(1) if mm else "?"))
            continue
        mm = re.search(r"> (?:col|line):[\d:]+ (?:referenced |used |implicit |invalid )*(\w+) '([^']*)'", dump)
        if not mm:
            raise TranslateError("cannot read the declaration at %s:%d: %r" % (rel, line, dump))
        name, ty = mm.group(1), mm.group(2)
        const = bool(re.match(r"\s*const\b", ty)) or bool(re.search(r"\bconstexpr\b", dump.split("'")[-1]))
        # `T *const` / `const T&`: top-level const of the object itself
        if re.search(r"\*\s*const\s*$", ty):
            const = True
        if ty.rstrip().endswith("&") and re.match(r"\s*const\b", ty):
            const = True
        kind = {"static-local": "static-local", "static-member": "static-member", "global": "global",
                "rng-object": "rng-object"}[bind]
        if kind == "global":
            kind = "global-const" if const else "global-mutable"
        elif kind in ("static-local", "static-member") and const:
            kind += "-const"
        entries.add((rel, kind, name))
    for (rel, fn), locs in rand.items():
        entries.add((rel, "rand", "%s#%d" % (fn, len(locs))))
    # textual: assignments to / increments of the non-const namespace-scope objects and static data
    # members anywhere under include/ (the definition with its initialiser does not count)
    # (static data members with very short names are skipped: `s`, `x` of stichwort/policy.hpp are
    # declarations used inside sizeof only and their names collide with ordinary locals)
    targets = sorted({n for (_, k, n) in entries
                      if k == "global-mutable" or (k == "static-member" and len(n) >= 4)})
    if targets:
        pat = re.compile(r"(?<![\w.>:])(?:[\w]+::)*(" + "|".join(map(re.escape, targets)) +
                         r")\s*(=(?!=)|[-+*/%|&^]=|<<=|>>=|\+\+|--)|(\+\+|--)\s*(?:[\w]+::)*(" +
                         "|".join(map(re.escape, targets)) + r")\b")
        for root, dirs, files in sorted(os.walk(inc)):
            dirs.sort()
            for f in sorted(files):
                if not f.endswith((".hpp", ".h")):
                    continue
                path = os.path.join(root, f)
                text = strip_comments(open(path, errors="replace").read())
                rel = os.path.relpath(path, inc)
                for line in text.splitlines():
                    for mm in pat.finditer(line):
                        name = mm.group(1) or mm.group(4)
                        before = line[:mm.start()]
                        # a declaration `T name = init;` / `static T name = init;`: type tokens precede
                        if mm.group(2) == "=" and re.search(r"[\w>&*]\s+$", before) and \
                                not re.search(r"\b(return|else|do)\s+$", before):
                            continue
                        entries.add((rel, "write", name))
    # textual: who draws from the process-wide random stream through the wrappers of defines/random.hpp
    # ("rand-user", counted per file and wrapper), and every use of the Logging singleton that is not a
    # `message_<level>(..)` call ("logger-read": the level getters, the sink getter / setter, the level
    # switches, or the singleton escaping into a variable) - message_* returns void, so a library that only
    # calls those cannot learn anything from the logger
    users = {}
    upat = re.compile(r"(?<![\w.>])(?:tapkee::)?(" + "|".join(RAND_WRAPPERS) + r")\s*\(")
    lpat = re.compile(r"\bLogging\s*::\s*instance\s*\(\s*\)(?:\s*\.\s*(\w+))?")
    for root, dirs, files in sorted(os.walk(inc)):
        dirs.sort()
        for f in sorted(files):
            if not f.endswith((".hpp", ".h")):
                continue
            path = os.path.join(root, f)
            rel = os.path.relpath(path, inc)
            text = strip_comments(open(path, errors="replace").read())
            if rel != "tapkee/defines/random.hpp":
                for mm in upat.finditer(text):
                    users[(rel, mm.group(1))] = users.get((rel, mm.group(1)), 0) + 1
            if rel != "tapkee/utils/logging.hpp":
                for mm in lpat.finditer(text):
                    member = mm.group(1)
                    if member is None:
                        entries.add((rel, "logger-read", "instance-escapes"))
                    elif not member.startswith("message_"):
                        entries.add((rel, "logger-read", member))
    for (rel, fn), cnt in users.items():
        entries.add((rel, "rand-user", "%s#%d" % (fn, cnt)))
    return sorted(entries)


def strip_comments(text):
    out = []
    i, n = 0, len(text)
    while i < n:
        c = text[i]
        if text.startswith("//", i):
            j = text.find("\n", i)
            i = n if j < 0 else j
        elif text.startswith("/*", i):
            j = text.find("*/", i + 2)
            seg = text[i:(n if j < 0 else j + 2)]
            out.append("\n" * seg.count("\n"))
            i = n if j < 0 else j + 2
        elif c == '"':
            j = i + 1
            while j < n and text[j] != '"':
                j += 2 if text[j] == "\\" else 1
            out.append('""')
            i = j + 1
        elif c == "'":
            j = i + 1
            while j < n and text[j] != "'":
                j += 2 if text[j] == "\\" else 1
            out.append("' '")
            i = j + 1
        else:
            out.append(c)
            i += 1
    return "".join(out)


def coq_string(s):
    return '"' + s.replace('"', '""') + '"'


def render(entries, repo):
    out = ["(* GENERATED by translate/t_static.py from the headers under include/ - do not edit.",
           "   One entry (file, kind, name) per object with static storage duration, per file that calls",
           "   rand/srand, per standard random engine object, per `mutable` data member. *)",
           "Require Import String List.", "Import ListNotations.", "Open Scope string_scope.", "",
           "Definition inventory : list (string * string * string) := ["]
    rows = ["  (%s, %s, %s)" % (coq_string(f), coq_string(k), coq_string(n)) for f, k, n in entries]
    out.append(";\n".join(rows))
    out.append("].")
    return "\n".join(out) + "\n"


def generate(repo, workdir=None):
    own = workdir is None
    workdir = workdir or tempfile.mkdtemp(prefix="t_static_", dir=os.path.join(VERIF, "build"))
    try:
        out, inc = run_query(repo, workdir)
        entries = parse(out, inc)
        if len(entries) < 20:
            raise TranslateError("implausibly small inventory (%d entries)" % len(entries))
        return entries, render(entries, repo)
    finally:
        if own:
            shutil.rmtree(workdir, ignore_errors=True)


def selftest(repo):
    """mutate a scratch copy of the headers; the inventory must change in the expected way"""
    os.makedirs(os.path.join(VERIF, "build"), exist_ok=True)
    tmp = tempfile.mkdtemp(prefix="t_static_self_", dir=os.path.join(VERIF, "build"))
    try:
        base, _ = generate(repo)
        dst = os.path.join(tmp, "repo")
        shutil.copytree(os.path.join(repo, "include"), os.path.join(dst, "include"))
        p = os.path.join(dst, "include", "tapkee", "utils", "matrix.hpp")
        s = open(p).read()
        s = s.replace("inline void centerMatrix(DenseMatrix& matrix)\n{",
                      "inline void centerMatrix(DenseMatrix& matrix)\n{\n    static int t_static_calls = 0;\n"
                      "    ++t_static_calls;\n    if (t_static_calls > 1000000) std::srand(1);")
        open(p, "w").write(s)
        p2 = os.path.join(dst, "include", "tapkee", "routines", "pca.hpp")
        s2 = open(p2).read()
        marker = "DenseVector mean = DenseVector::Zero(dimension);"
        if marker not in s2:
            print("selftest FAILED: marker not found in routines/pca.hpp")
            return 1
        s2 = s2.replace(marker, marker + "\n    if (Logging::instance().is_debug_enabled()) mean(0) += 0 * tapkee::uniform_random();", 1)
        open(p2, "w").write(s2)
        mut, _ = generate(dst)
        added = set(mut) - set(base)
        want = {("tapkee/utils/matrix.hpp", "static-local", "t_static_calls"),
                ("tapkee/utils/matrix.hpp", "rand", "srand#1"),
                ("tapkee/routines/pca.hpp", "rand-user", "uniform_random#1"),
                ("tapkee/routines/pca.hpp", "logger-read", "is_debug_enabled")}
        ok = added == want and set(base) <= set(mut)
        print("selftest", "ok" if ok else "FAILED", sorted(added))
        return 0 if ok else 1
    finally:
        shutil.rmtree(tmp, ignore_errors=True)


def main(argv):
    repo = os.environ.get("VERIF_REPO", "/repo")
    out = os.path.join(VERIF, "coq", "gen", "Statics.v")
    do_print = False
    i = 0
    while i < len(argv):
        if argv[i] == "--repo":
            repo = argv[i + 1]
            i += 2
        elif argv[i] == "--out":
            out = argv[i + 1]
            i += 2
        elif argv[i] == "--print":
            do_print = True
            i += 1
        elif argv[i] == "--selftest":
            return selftest(repo)
        else:
            print(__doc__)
            return 2
    os.makedirs(os.path.join(VERIF, "build"), exist_ok=True)
    try:
        entries, text = generate(repo)
    except TranslateError as ex:
        print("t_static: " + str(ex), file=sys.stderr)
        return 1
    if do_print:
        sys.stdout.write(text)
    else:
        open(out, "w").write(text)
        print("t_static: %d entries -> %s" % (len(entries), out))
    return 0


if __name__ == "__main__":
    sys.exit(main(sys.argv[1:]))
