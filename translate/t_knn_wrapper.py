#!/usr/bin/env python3
"""T-knn-wrapper: the shape of the dispatcher tapkee_internal::find_neighbors (neighbors/neighbors.hpp).

    python3 translate/t_knn_wrapper.py [--repo /repo] [--out coq/gen/KnnWrapper.v]
    python3 translate/t_knn_wrapper.py --self-test

Reads the body of `Neighbors find_neighbors(NeighborsMethod method, ..., IndexType k, bool check_connectivity)` up to
the connectivity test and extracts (comments, white space, string literals and logger calls removed)
    the clamp of k                 if (<cond>) { ... <assignment> }
    the dispatch statements        if (method.is(X)) neighbors = find_neighbors_X_impl(...);   in source order
    the fallback block             if (<guard>) { for (<loop>) { if (<test>) { <action statements> } } }
and writes them as a Coq record `fn_shape_src : fn_shape` (type in coq/Knn_Wrapper_Model.v).  Properties_C02.v has the
obligation fn_shape_src = fn_shape_model (the shape Knn_Wrapper_Model.find_neighbors_core transcribes: ANY row of the
wrong size -> the WHOLE table is replaced by the exhaustive search).  checks/c02.py compares the table this tree
generates with the committed coq/gen/KnnWrapper.v on every run; a difference re-opens the property (search phase).
Anything the small grammar does not understand raises TranslateError (same consequence).
"""
import argparse
import os
import re
import sys

FILE = "include/tapkee/neighbors/neighbors.hpp"


class TranslateError(Exception):
    pass


def strip_comments(s):
    s = re.sub(r"/\*.*?\*/", " ", s, flags=re.S)
    return re.sub(r"//[^\n]*", "", s)


def strip_strings(s):
    return re.sub(r'"(?:\\.|[^"\\])*"', '""', s)


def balanced(src, i, open_c="{", close_c="}"):
    """src[i] == open_c -> index of the matching close_c"""
    if i >= len(src) or src[i] != open_c:
        raise TranslateError("expected %r" % open_c)
    depth = 0
    for j in range(i, len(src)):
        if src[j] == open_c:
            depth += 1
        elif src[j] == close_c:
            depth -= 1
            if depth == 0:
                return j
    raise TranslateError("unbalanced %s%s" % (open_c, close_c))


def unwrap_casts(s):
    """static_cast<IndexType>(e), IndexType(e) -> (e): the conversions between the iterator difference / size types and IndexType
    carry no behaviour for the sizes that occur (N < 2^31)"""
    while True:
        m = re.search(r"\bstatic_cast\s*<\s*IndexType\s*>\s*\(|(?<![\w<:.>])IndexType\s*\(", s)
        if not m:
            return s
        j = balanced(s, m.end() - 1, "(", ")")
        s = s[:m.start()] + "(" + s[m.end():j] + ")" + s[j + 1:]


def squeeze(s):
    s = unwrap_casts(s)
    # the spelling of the row iterator's type is free
    s = re.sub(r"\b(?:const\s+)?(?:Neighbors::const_iterator|Neighbors::iterator|auto)\s+iter\b", "ITER iter", s)
    return re.sub(r"\s+", "", s)


def statements(block):
    """top-level statements of a brace-less statement sequence: split at ';' and at balanced {...} groups"""
    out, i, start = [], 0, 0
    n = len(block)
    while i < n:
        ch = block[i]
        if ch == "(":
            i = balanced(block, i, "(", ")") + 1
        elif ch == "{":
            j = balanced(block, i)
            out.append(block[start:j + 1])
            i = start = j + 1
        elif ch == ";":
            out.append(block[start:i + 1])
            i = start = i + 1
        else:
            i += 1
    if block[start:].strip():
        raise TranslateError("trailing text %r" % block[start:].strip()[:60])
    return [s.strip() for s in out if s.strip()]


def split_if(stmt):
    """'if (c) body' -> (c, body) ; body without its braces"""
    m = re.match(r"\s*if\s*\(", stmt)
    if not m:
        return None
    j = balanced(stmt, m.end() - 1, "(", ")")
    cond = stmt[m.end():j]
    body = stmt[j + 1:].strip()
    if body.startswith("{"):
        e = balanced(body, 0)
        if body[e + 1:].strip():
            return None          # else branch or trailing text: not the plain form
        body = body[1:e]
    return cond, body


def is_logger(stmt):
    return re.match(r"\s*(tapkee::)?Logging(Singleton)?::instance\(\)\s*\.\s*message_\w+\s*\(", stmt) is not None


def parse(repo):
    src = strip_strings(strip_comments(open(os.path.join(repo, FILE)).read()))
    src = re.sub(r"(?m)^[ \t]*#[^\n]*$", "", src)        # preprocessor lines (#ifdef TAPKEE_USE_LGPL_COVERTREE / #endif)
    m = re.search(r"\bNeighbors\s+find_neighbors\s*\(\s*NeighborsMethod\b", src)
    if not m:
        raise TranslateError("find_neighbors(NeighborsMethod ...) not found")
    i = src.find("{", balanced(src, src.find("(", m.start()), "(", ")"))
    body = src[i + 1:balanced(src, i)]
    cut = re.search(r"if\s*\(\s*check_connectivity\b", body)
    if not cut:
        raise TranslateError("the connectivity test is not where it was")
    head = body[:cut.start()]
    stmts = statements(head)
    tab = {"clamp": None, "dispatch": [], "guard": None, "loop": None, "test": None, "action": None}
    seen_decl = False
    for s in stmts:
        if is_logger(s):
            continue
        if re.match(r"Neighbors\s+neighbors\s*;$", s):
            seen_decl = True
            continue
        si = split_if(s)
        if si is None:
            raise TranslateError("statement not understood: %r" % s[:80])
        cond, inner = si
        inner_st = [x for x in statements(inner) if not is_logger(x)]
        if not seen_decl:
            if tab["clamp"] is not None or len(inner_st) != 1:
                raise TranslateError("clamp of k not understood")
            tab["clamp"] = [squeeze(cond), squeeze(inner_st[0])]
            continue
        if len(inner_st) == 1 and re.match(r"neighbors\s*=\s*find_neighbors_\w+_impl\s*\(", inner_st[0]) \
                and tab["guard"] is None:
            tab["dispatch"].append("if(%s)%s" % (squeeze(cond), squeeze(inner_st[0])))
            continue
        # the fallback block
        if tab["guard"] is not None:
            raise TranslateError("two blocks after the dispatch")
        if len(inner_st) != 1:
            raise TranslateError("fallback block: expected one loop, found %d statements" % len(inner_st))
        lm = re.match(r"\s*for\s*\(", inner_st[0])
        if not lm:
            raise TranslateError("fallback block: no for loop")
        j = balanced(inner_st[0], lm.end() - 1, "(", ")")
        loop_head = inner_st[0][:j + 1]
        loop_body = inner_st[0][j + 1:].strip()
        if loop_body.startswith("{"):
            e = balanced(loop_body, 0)
            if loop_body[e + 1:].strip():
                raise TranslateError("text after the loop body")
            loop_body = loop_body[1:e]
        lst = [x for x in statements(loop_body) if not is_logger(x)]
        if len(lst) != 1 or split_if(lst[0]) is None:
            raise TranslateError("fallback loop: expected exactly one if statement, found %d statements" % len(lst))
        test, act = split_if(lst[0])
        tab["guard"], tab["loop"], tab["test"] = squeeze(cond), squeeze(loop_head), squeeze(test)
        tab["action"] = [squeeze(x) for x in statements(act) if not is_logger(x)]
    if tab["clamp"] is None or not tab["dispatch"] or tab["guard"] is None:
        raise TranslateError("clamp / dispatch / fallback block missing")
    return tab


def coq_str(s):
    return '"%s"' % s.replace('"', '""')


def coq_list(l):
    return "[ " + ";\n      ".join(coq_str(x) for x in l) + " ]"


def emit(tab):
    lines = ["(* GENERATED by translate/t_knn_wrapper.py from %s (function find_neighbors) -- do not edit *)" % FILE,
             "From Coq Require Import String List.",
             "From TK Require Import Knn_Wrapper_Model.",
             "Import ListNotations.",
             "Local Open Scope string_scope.",
             "",
             "Definition fn_shape_src : fn_shape := mk_fn_shape",
             "  (* clamp *)    " + coq_list(tab["clamp"]),
             "  (* dispatch *) " + coq_list(tab["dispatch"]),
             "  (* guard *)    " + coq_str(tab["guard"]),
             "  (* loop *)     " + coq_str(tab["loop"]),
             "  (* test *)     " + coq_str(tab["test"]),
             "  (* action *)   " + coq_list(tab["action"]) + "."]
    return "\n".join(lines) + "\n"


def write_if_changed(path, text):
    os.makedirs(os.path.dirname(path), exist_ok=True)
    if os.path.exists(path) and open(path).read() == text:
        return False
    tmp = path + ".tmp%d" % os.getpid()
    open(tmp, "w").write(text)
    os.replace(tmp, path)
    return True


MUTS = [("neighbors = find_neighbors_bruteforce_impl(begin, end, callback, k);\n                break;",
         "*const_cast<LocalNeighbors*>(&*iter) = find_neighbors_bruteforce_impl(begin, end, callback, k)[iter - neighbors.begin()];"),
        ("if (static_cast<IndexType>(iter->size()) != k)", "if (static_cast<IndexType>(iter->size()) < k)"),
        ("if (!method.is(Brute))", "if (method.is(CoverTree))"),
        ("k = static_cast<IndexType>(end - begin - 1);", "k = static_cast<IndexType>(end - begin);"),
        ("if (method.is(VpTree))\n        neighbors = find_neighbors_vptree_impl(begin, end, callback, k);",
         "if (method.is(VpTree))\n        neighbors = find_neighbors_vptree_impl(begin, end, callback, k + 1);")]


def self_test(repo):
    """seeded edits of a scratch copy must change the table or be rejected; returns the undetected ones"""
    import shutil
    import tempfile
    base = emit(parse(repo))
    bad = []
    for old, new in MUTS:
        d = tempfile.mkdtemp(prefix="t_knnw_")
        try:
            os.makedirs(os.path.join(d, os.path.dirname(FILE)))
            s = open(os.path.join(repo, FILE)).read()
            if old not in s:
                continue      # the tree under test already differs here
            open(os.path.join(d, FILE), "w").write(s.replace(old, new, 1))
            try:
                if emit(parse(d)) == base:
                    bad.append(old)
            except TranslateError:
                pass
        finally:
            shutil.rmtree(d, ignore_errors=True)
    return bad


if __name__ == "__main__":
    ap = argparse.ArgumentParser()
    ap.add_argument("--repo", default=os.environ.get("VERIF_REPO", "/repo"))
    ap.add_argument("--out", default=None)
    ap.add_argument("--self-test", action="store_true")
    a = ap.parse_args()
    if a.self_test:
        b = self_test(a.repo)
        print("self-test:", "ok" if not b else "UNDETECTED: %s" % b)
        sys.exit(1 if b else 0)
    t = emit(parse(a.repo))
    if a.out:
        print("written" if write_if_changed(a.out, t) else "unchanged")
    else:
        sys.stdout.write(t)
