#!/usr/bin/env python3
"""Validate MANIFEST.json and every evidence file against the harness schemas (uses python3-vt's jsonschema)."""
import glob, json, sys
import jsonschema
ok = True
m = json.load(open('/verif/MANIFEST.json'))
try:
    jsonschema.validate(m, json.load(open('/root/.vp/MANIFEST.schema.json')))
    print("MANIFEST ok: %d checks, %d not_applicable" % (len(m['checks']), len(m.get('not_applicable', []))))
except Exception as e:
    ok = False; print("MANIFEST INVALID", e)
es = json.load(open('/root/.vp/EVIDENCE.schema.json'))
for p in sorted(glob.glob('/verif/evidence/*.json')):
    try:
        jsonschema.validate(json.load(open(p)), es); print("ok", p)
    except Exception as e:
        ok = False; print("INVALID", p, str(e)[:300])
sys.exit(0 if ok else 1)
